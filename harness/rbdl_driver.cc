// Correspondence driver, implementation side: executes case files against the
// rbdl sources of /repo's current working tree and prints every observable.
// Case language: see DESIGN.md Appendix A / tools/gen_cases.py.
#include <rbdl/rbdl.h>
#include <rbdl/rbdl_utils.h>
#include <cstdio>
#include <cstdlib>
#include <cstring>
#include <string>
#include <vector>
#include <sstream>
#include <iostream>
#include <fstream>
#include <limits>
#include <unistd.h>
#include <cmath>
#include <algorithm>
#include <sys/wait.h>
#include "driver_ext.h"

using namespace RigidBodyDynamics;
using namespace RigidBodyDynamics::Math;

// ---------------------------------------------------------------- custom joints of the harness
struct HRevX : public CustomJoint {
  HRevX() { mDoFCount = 1; S = MatrixNd::Zero(6, 1); d_u = VectorNd::Zero(1); }
  void common(Model &model, unsigned int id, const VectorNd &q) {
    unsigned int qi = model.mJoints[id].q_index;
    XJ = Xrotx(q[qi]);
    model.X_lambda[id] = XJ * model.X_T[id];
    S = MatrixNd::Zero(6, 1); S(0, 0) = 1.;
  }
  virtual void jcalc(Model &model, unsigned int id, const VectorNd &q, const VectorNd &qdot) {
    common(model, id, q);
    unsigned int qi = model.mJoints[id].q_index;
    model.v_J[id] = SpatialVector(qdot[qi], 0., 0., 0., 0., 0.);
    model.c_J[id] = SpatialVector(0., 0., 0., 0., 0., 0.);
  }
  virtual void jcalc_X_lambda_S(Model &model, unsigned int id, const VectorNd &q) { common(model, id, q); }
};
struct HEulerZYX : public CustomJoint {
  HEulerZYX() { mDoFCount = 3; S = MatrixNd::Zero(6, 3); d_u = VectorNd::Zero(3); }
  void common(Model &model, unsigned int id, const VectorNd &q) {
    unsigned int qi = model.mJoints[id].q_index;
    double s0 = sin(q[qi]), c0 = cos(q[qi]), s1 = sin(q[qi + 1]), c1 = cos(q[qi + 1]), s2 = sin(q[qi + 2]), c2 = cos(q[qi + 2]);
    XJ = SpatialTransform(Matrix3d(c0 * c1, s0 * c1, -s1,
                                   c0 * s1 * s2 - s0 * c2, s0 * s1 * s2 + c0 * c2, c1 * s2,
                                   c0 * s1 * c2 + s0 * s2, s0 * s1 * c2 - c0 * s2, c1 * c2), Vector3d::Zero());
    model.X_lambda[id] = XJ * model.X_T[id];
    S = MatrixNd::Zero(6, 3);
    S(0, 0) = -s1; S(0, 2) = 1.; S(1, 0) = c1 * s2; S(1, 1) = c2; S(2, 0) = c1 * c2; S(2, 1) = -s2;
  }
  virtual void jcalc(Model &model, unsigned int id, const VectorNd &q, const VectorNd &qdot) {
    common(model, id, q);
    unsigned int qi = model.mJoints[id].q_index;
    double s1 = sin(q[qi + 1]), c1 = cos(q[qi + 1]), s2 = sin(q[qi + 2]), c2 = cos(q[qi + 2]);
    double qd0 = qdot[qi], qd1 = qdot[qi + 1], qd2 = qdot[qi + 2];
    VectorNd v = S * Vector3d(qd0, qd1, qd2);
    model.v_J[id] = SpatialVector(v[0], v[1], v[2], v[3], v[4], v[5]);
    model.c_J[id] = SpatialVector(-c1 * qd0 * qd1,
                                  -s1 * s2 * qd0 * qd1 + c1 * c2 * qd0 * qd2 - s2 * qd1 * qd2,
                                  -s1 * c2 * qd0 * qd1 - c1 * s2 * qd0 * qd2 - c2 * qd1 * qd2, 0., 0., 0.);
  }
  virtual void jcalc_X_lambda_S(Model &model, unsigned int id, const VectorNd &q) { common(model, id, q); }
};
// rotation about z by q0, then translation q1 along the rotated x axis
struct HRzTx : public CustomJoint {
  HRzTx() { mDoFCount = 2; S = MatrixNd::Zero(6, 2); d_u = VectorNd::Zero(2); }
  void common(Model &model, unsigned int id, const VectorNd &q) {
    unsigned int qi = model.mJoints[id].q_index;
    XJ = Xtrans(Vector3d(q[qi + 1], 0., 0.)) * Xrotz(q[qi]);
    model.X_lambda[id] = XJ * model.X_T[id];
    S = MatrixNd::Zero(6, 2);
    S(2, 0) = 1.; S(4, 0) = q[qi + 1]; S(3, 1) = 1.;
  }
  virtual void jcalc(Model &model, unsigned int id, const VectorNd &q, const VectorNd &qdot) {
    common(model, id, q);
    unsigned int qi = model.mJoints[id].q_index;
    VectorNd v = S * Vector2d(qdot[qi], qdot[qi + 1]);
    model.v_J[id] = SpatialVector(v[0], v[1], v[2], v[3], v[4], v[5]);
    model.c_J[id] = SpatialVector(0., 0., 0., 0., qdot[qi] * qdot[qi + 1], 0.);
  }
  virtual void jcalc_X_lambda_S(Model &model, unsigned int id, const VectorNd &q) { common(model, id, q); }
};

Out out;
void Out::begin(long seq, const char *label) { printf("o %ld %s", seq, label); }
void Out::d(double x) { printf(" %.17g", x); }
void Out::u(unsigned long x) { printf(" %lu", x); }
void Out::s(const char *x) { printf(" %s", x); }
void Out::end() { printf("\n"); }
void Out::v3(const Vector3d &v) { for (int k = 0; k < 3; k++) d(v[k]); }
void Out::m3(const Matrix3d &m) { for (int i = 0; i < 3; i++) for (int j = 0; j < 3; j++) d(m(i, j)); }
void Out::sv(const SpatialVector &v) { for (int k = 0; k < 6; k++) d(v[k]); }
void Out::vec(const VectorNd &v) { for (int k = 0; k < v.size(); k++) d(v[k]); }
void Out::mat(const MatrixNd &m) { for (int i = 0; i < m.rows(); i++) for (int j = 0; j < m.cols(); j++) d(m(i, j)); }
void Out::st(const SpatialTransform &X) { m3(X.E); v3(X.r); }
void Out::line(long seq, const char *label, const VectorNd &v) { begin(seq, label); vec(v); end(); }

bool g_luamode = false;
static std::string name_of(long nm) {
  if (nm == 0) return "";
  if (nm == 1) return "ROOT";
  char b[32]; snprintf(b, sizeof b, "n%ld", nm); return b;
}

Ctx::Ctx() : model(new Model()), ext(NULL) {}
Ctx::~Ctx() { if (ext) ext_free(ext); delete model; for (size_t k = 0; k < customs.size(); k++) delete customs[k]; }
unsigned int Ctx::ref(const std::string &s) {
  if (s == "base") return 0;
  if (s == "prev") return model->previously_added_body_id;
  long k = strtol(s.c_str(), NULL, 10);
  if (k < 0 || (size_t)k >= ids.size()) return std::numeric_limits<unsigned int>::max();
  return ids[k];
}
std::vector<SpatialVector> *Ctx::fext(Toks &T) {
  std::string f = T.str();      // "F"
  long n = T.integer();
  if (n == 0) return NULL;
  fext_store.clear();
  for (long k = 0; k < n; k++) fext_store.push_back(T.sv());
  return &fext_store;
}

static double scr(long k, long idx, long comp) { return (double)((k * 7 + idx * 3 + comp * 5) % 11) * 0.125 - 0.5; }

static void scramble(Model &m, long k) {
  size_t n = m.mBodies.size();
  for (size_t i = 0; i < n; i++) {
    for (int c = 0; c < 6; c++) {
      m.v[i][c] = scr(k, i, c); m.a[i][c] = scr(k, i, c + 1);
      if (i > 0) { m.c[i][c] = scr(k, i, c + 2); }
      m.f[i][c] = scr(k, i, c + 3); m.pA[i][c] = scr(k, i, c + 4); m.U[i][c] = scr(k, i, c + 5);
      for (int e = 0; e < 6; e++) m.IA[i](c, e) = scr(k, i, c + e);
      for (int e = 0; e < 3; e++) m.multdof3_U[i](c, e) = scr(k, i, c + e + 1);
    }
    m.d[i] = scr(k, i, 6) + 2.; m.u[i] = scr(k, i, 7);
    for (int c = 0; c < 3; c++) { m.multdof3_u[i][c] = scr(k, i, c + 8); for (int e = 0; e < 3; e++) m.multdof3_Dinv[i](c, e) = scr(k, i, c + e + 2); }
    m.Ic[i] = SpatialRigidBodyInertia(scr(k, i, 1) + 1., Vector3d(scr(k, i, 2), scr(k, i, 3), scr(k, i, 4)),
                                      scr(k, i, 5), scr(k, i, 6), scr(k, i, 7), scr(k, i, 8), scr(k, i, 9), scr(k, i, 10));
    if (i > 0) {
      Matrix3d E; for (int c = 0; c < 3; c++) for (int e = 0; e < 3; e++) E(c, e) = scr(k, i, 3 * c + e);
      m.X_lambda[i] = SpatialTransform(E, Vector3d(scr(k, i, 9), scr(k, i, 10), scr(k, i, 11)));
      Matrix3d E2; for (int c = 0; c < 3; c++) for (int e = 0; e < 3; e++) E2(c, e) = scr(k, i, 3 * c + e + 1);
      m.X_base[i] = SpatialTransform(E2, Vector3d(scr(k, i, 12), scr(k, i, 13), scr(k, i, 14)));
    }
  }
}

static void dump_model(Ctx &C, long seq) {
  Model &m = *C.model;
  out.begin(seq, "sizes"); out.u(m.dof_count); out.u(m.q_size); out.u(m.qdot_size); out.u(m.mBodies.size()); out.u(m.mFixedBodies.size());
  out.u(m.lambda.size()); out.u(m.mJoints.size()); out.u(m.X_T.size()); out.u(m.I.size()); out.u(m.v.size()); out.u(m.X_base.size());
  out.u(m.mu.size()); out.u(m.multdof3_w_index.size()); out.u(m.previously_added_body_id); out.u(m.mCustomJoints.size()); out.end();
  out.begin(seq, "lambda"); for (size_t i = 0; i < m.lambda.size(); i++) out.u(m.lambda[i]); out.end();
  out.begin(seq, "lambda_q"); for (size_t i = 0; i < m.lambda_q.size(); i++) out.u(m.lambda_q[i]); out.end();
  out.begin(seq, "mu"); for (size_t i = 0; i < m.mu.size(); i++) { out.s("|"); for (size_t j = 0; j < m.mu[i].size(); j++) out.u(m.mu[i][j]); } out.end();
  out.begin(seq, "joints"); for (size_t i = 0; i < m.mJoints.size(); i++) { out.u(m.mJoints[i].mJointType); out.u(m.mJoints[i].mDoFCount); out.u(m.mJoints[i].q_index); } out.end();
  out.begin(seq, "w_index"); for (size_t i = 0; i < m.mJoints.size() && i < m.multdof3_w_index.size(); i++) out.u(m.mJoints[i].mJointType == JointTypeSpherical ? m.multdof3_w_index[i] : 0); out.end();
  out.begin(seq, "update_order"); for (size_t i = 0; i < m.mJointUpdateOrder.size(); i++) out.u(m.mJointUpdateOrder[i]); out.end();
  out.begin(seq, "virtual"); for (size_t i = 0; i < m.mBodies.size(); i++) out.u(m.mBodies[i].mIsVirtual ? 1 : 0); out.end();
  out.begin(seq, "X_T"); for (size_t i = 0; i < m.X_T.size(); i++) out.st(m.X_T[i]); out.end();
  out.begin(seq, "axes"); for (size_t i = 0; i < m.mJoints.size(); i++) for (unsigned k = 0; k < m.mJoints[i].mDoFCount; k++) out.sv(m.mJoints[i].mJointAxes[k]); out.end();
  out.begin(seq, "I");
  for (size_t i = 0; i < m.I.size(); i++) { out.d(m.I[i].m); out.v3(m.I[i].h); out.d(m.I[i].Ixx); out.d(m.I[i].Iyx); out.d(m.I[i].Iyy); out.d(m.I[i].Izx); out.d(m.I[i].Izy); out.d(m.I[i].Izz); }
  out.end();
  out.begin(seq, "bodies"); for (size_t i = 0; i < m.mBodies.size(); i++) { out.d(m.mBodies[i].mMass); out.v3(m.mBodies[i].mCenterOfMass); out.m3(m.mBodies[i].mInertia); } out.end();
  out.begin(seq, "fixed"); for (size_t i = 0; i < m.mFixedBodies.size(); i++) { out.u(m.mFixedBodies[i].mMovableParent); out.st(m.mFixedBodies[i].mParentTransform); out.d(m.mFixedBodies[i].mMass); out.v3(m.mFixedBodies[i].mCenterOfMass); out.m3(m.mFixedBodies[i].mInertia); } out.end();
  out.begin(seq, "gravity"); out.v3(m.gravity); out.end();
  // names: query every name the case has used, in numeric order
  out.begin(seq, "names"); for (size_t k = 0; k < C.used_names.size(); k++) { out.u(C.used_names[k]); out.u(m.GetBodyId(name_of(C.used_names[k]).c_str())); } out.end();
  out.begin(seq, "ids");
  for (size_t k = 0; k < C.ids.size(); k++) {
    unsigned id = C.ids[k];
    if (id == std::numeric_limits<unsigned int>::max()) { out.s("rej"); continue; }
    out.u(id); out.u(m.IsFixedBodyId(id) ? 1 : 0); out.u(m.IsBodyId(id) ? 1 : 0); out.u(m.GetParentBodyId(id));
    std::string nm = m.GetBodyName(id); out.s(nm.size() ? nm.c_str() : "-");
  }
  out.end();
  out.begin(seq, "jframes"); for (size_t k = 0; k < C.ids.size(); k++) if (C.ids[k] != std::numeric_limits<unsigned int>::max()) out.st(m.GetJointFrame(C.ids[k])); out.end();
}

static void dump_kin(Model &m, long seq) {
  out.begin(seq, "v"); for (size_t i = 1; i < m.mBodies.size(); i++) out.sv(m.v[i]); out.end();
  out.begin(seq, "a"); for (size_t i = 1; i < m.mBodies.size(); i++) out.sv(m.a[i]); out.end();
  out.begin(seq, "X_base"); for (size_t i = 1; i < m.mBodies.size(); i++) out.st(m.X_base[i]); out.end();
}

static Joint make_joint(Toks &T, Ctx &C, CustomJoint **cj) {
  std::string j = T.str();
  *cj = NULL;
  if (j == "fixed") return Joint(JointTypeFixed);
  if (j == "revx") return Joint(JointTypeRevoluteX);
  if (j == "revy") return Joint(JointTypeRevoluteY);
  if (j == "revz") return Joint(JointTypeRevoluteZ);
  if (j == "rev") { Vector3d a = T.v3(); return Joint(JointTypeRevolute, a); }
  if (j == "pris") { Vector3d a = T.v3(); return Joint(JointTypePrismatic, a); }
  if (j == "axis") { SpatialVector a = T.sv(); return Joint(a); }
  if (j == "sph") return Joint(JointTypeSpherical);
  if (j == "ezyx") return Joint(JointTypeEulerZYX);
  if (j == "exyz") return Joint(JointTypeEulerXYZ);
  if (j == "eyxz") return Joint(JointTypeEulerYXZ);
  if (j == "ezxy") return Joint(JointTypeEulerZXY);
  if (j == "txyz") return Joint(JointTypeTranslationXYZ);
  if (j == "float") return Joint(JointTypeFloatingBase);
  if (j == "emu") {
    long k = T.integer(); std::vector<SpatialVector> a; for (long i = 0; i < k; i++) a.push_back(T.sv());
    switch (k) {
      case 2: return Joint(a[0], a[1]); case 3: return Joint(a[0], a[1], a[2]); case 4: return Joint(a[0], a[1], a[2], a[3]);
      case 5: return Joint(a[0], a[1], a[2], a[3], a[4]); default: return Joint(a[0], a[1], a[2], a[3], a[4], a[5]);
    }
  }
  if (j == "crevx") { *cj = new HRevX(); return Joint(); }
  if (j == "cezyx") { *cj = new HEulerZYX(); return Joint(); }
  if (j == "crztx") { *cj = new HRzTx(); return Joint(); }
  return Joint();   // "bad": JointTypeUndefined
}

static void run_line(Ctx &C, const std::string &line, long seq) {
  Toks T(line);
  if (!T.more()) return;
  std::string cmd = T.str();
  Model &m = *C.model;
  const unsigned UMAX = std::numeric_limits<unsigned int>::max();
  try {
    if (cmd == "gravity") { if (!g_luamode) m.gravity = T.v3(); }
    else if (cmd == "add" && g_luamode) {
      // the model was loaded from a Lua description: resolve the body by its name instead of adding it
      T.str(); long nm = T.integer();
      if (nm >= 1) { bool seen = false; for (size_t k = 0; k < C.used_names.size(); k++) if (C.used_names[k] == (unsigned long)nm) seen = true; if (!seen) C.used_names.push_back(nm); }
      unsigned id = (nm >= 1) ? m.GetBodyId(name_of(nm).c_str()) : UMAX;
      if (id != UMAX) { out.begin(seq, "add"); out.s("ok"); out.end(); out.begin(seq, "addid"); out.u(id); out.end(); }
      else { out.begin(seq, "add"); out.s("rejected"); out.end(); }
      C.ids.push_back(id);
    }
    else if (cmd == "add") {
      std::string pref = T.str(); long nm = T.integer();
      T.str(); Matrix3d E = T.m3(); T.str(); Vector3d r = T.v3();
      T.str(); double mass = T.num(); Vector3d com = T.v3(); Matrix3d I = T.m3(); long virt = T.integer();
      T.str(); CustomJoint *cj = NULL;
      bool is_custom = false;
      if (nm > 1 || nm == 1) { bool seen = false; for (size_t k = 0; k < C.used_names.size(); k++) if (C.used_names[k] == (unsigned long)nm) seen = true; if (!seen) C.used_names.push_back(nm); }
      Body b(mass, com, I); b.mIsVirtual = virt != 0;
      SpatialTransform X(E, r);
      unsigned id = UMAX;
      try {
        Joint j = make_joint(T, C, &cj);
        is_custom = cj != NULL;
        unsigned parent = C.ref(pref);
        if (is_custom) { id = m.AddBodyCustomJoint(parent, X, cj, b, name_of(nm)); C.customs.push_back(cj); cj = NULL; }
        else id = m.AddBody(parent, X, j, b, name_of(nm));
        out.begin(seq, "add"); out.s("ok"); out.end(); out.begin(seq, "addid"); out.u(id); out.end();
      } catch (Errors::RBDLError &e) {
        if (cj) { C.customs.push_back(cj); }
        out.begin(seq, "add"); out.s("rejected"); out.end(); id = UMAX;
      }
      C.ids.push_back(id);
    }
    else if (cmd == "setmass" || cmd == "setcom" || cmd == "setinertia" || cmd == "setall") {
      unsigned id = C.ref(T.str());
      try {
        if (cmd == "setmass") m.SetBodyMass(id, T.num());
        else if (cmd == "setcom") m.SetBodyCenterOfMass(id, T.v3());
        else if (cmd == "setinertia") m.SetBodyInertia(id, T.m3());
        else { double ms = T.num(); Matrix3d I = T.m3(); Vector3d c = T.v3(); m.SetBodyInertialParameters(id, ms, I, c); }
        out.begin(seq, cmd.c_str()); out.s("ok"); out.end();
      } catch (Errors::RBDLError &e) { out.begin(seq, cmd.c_str()); out.s("throw"); out.end(); }
    }
    else if (cmd == "dump") dump_model(C, seq);
    else if (cmd == "scramble") scramble(m, T.integer());
    else if (cmd == "updkin") { VectorNd q = T.vec(), qd = T.vec(), qdd = T.vec(); UpdateKinematics(m, q, qd, qdd); dump_kin(m, seq); }
    else if (cmd == "updkinc") {
      long mask = T.integer(); VectorNd q = T.vec(), qd = T.vec(), qdd = T.vec();
      UpdateKinematicsCustom(m, (mask & 1) ? &q : NULL, (mask & 2) ? &qd : NULL, (mask & 4) ? &qdd : NULL); dump_kin(m, seq);
    }
    else if (cmd == "b2b" || cmd == "base2b") {
      unsigned id = C.ref(T.str()); Vector3d p = T.v3(); long flag = T.integer(); VectorNd q = T.vec();
      Vector3d r = cmd == "b2b" ? CalcBodyToBaseCoordinates(m, q, id, p, flag != 0) : CalcBaseToBodyCoordinates(m, q, id, p, flag != 0);
      out.begin(seq, cmd.c_str()); out.v3(r); out.end();
    }
    else if (cmd == "orient") {
      unsigned id = C.ref(T.str()); long flag = T.integer(); VectorNd q = T.vec();
      Matrix3d E = CalcBodyWorldOrientation(m, q, id, flag != 0); out.begin(seq, "orient"); out.m3(E); out.end();
    }
    else if (cmd == "jac" || cmd == "jac6") {
      unsigned id = C.ref(T.str()); Vector3d p = T.v3(); long flag = T.integer(); VectorNd q = T.vec();
      MatrixNd G = MatrixNd::Zero(cmd == "jac" ? 3 : 6, m.qdot_size);
      if (cmd == "jac") CalcPointJacobian(m, q, id, p, G, flag != 0); else CalcPointJacobian6D(m, q, id, p, G, flag != 0);
      out.begin(seq, cmd.c_str()); out.mat(G); out.end();
    }
    else if (cmd == "sjac") {
      unsigned id = C.ref(T.str()); long flag = T.integer(); VectorNd q = T.vec();
      MatrixNd G = MatrixNd::Zero(6, m.qdot_size); CalcBodySpatialJacobian(m, q, id, G, flag != 0);
      out.begin(seq, "sjac"); out.mat(G); out.end();
    }
    else if (cmd == "pvel" || cmd == "pvel6") {
      unsigned id = C.ref(T.str()); Vector3d p = T.v3(); long flag = T.integer(); VectorNd q = T.vec(), qd = T.vec();
      out.begin(seq, cmd.c_str());
      if (cmd == "pvel") out.v3(CalcPointVelocity(m, q, qd, id, p, flag != 0)); else out.sv(CalcPointVelocity6D(m, q, qd, id, p, flag != 0));
      out.end();
    }
    else if (cmd == "pacc" || cmd == "pacc6") {
      unsigned id = C.ref(T.str()); Vector3d p = T.v3(); long flag = T.integer(); VectorNd q = T.vec(), qd = T.vec(), qdd = T.vec();
      out.begin(seq, cmd.c_str());
      if (cmd == "pacc") out.v3(CalcPointAcceleration(m, q, qd, qdd, id, p, flag != 0)); else out.sv(CalcPointAcceleration6D(m, q, qd, qdd, id, p, flag != 0));
      out.end();
    }
    else if (cmd == "id") {
      VectorNd q = T.vec(), qd = T.vec(), qdd = T.vec(); std::vector<SpatialVector> *fe = C.fext(T);
      VectorNd tau = VectorNd::Zero(m.qdot_size); InverseDynamics(m, q, qd, qdd, tau, fe); out.line(seq, "tau", tau);
    }
    else if (cmd == "nle") {
      VectorNd q = T.vec(), qd = T.vec(); std::vector<SpatialVector> *fe = C.fext(T);
      VectorNd tau = VectorNd::Zero(m.qdot_size); NonlinearEffects(m, q, qd, tau, fe); out.line(seq, "nle", tau);
    }
    else if (cmd == "crba") {
      long flag = T.integer(); VectorNd q = T.vec();
      MatrixNd H = MatrixNd::Zero(m.qdot_size, m.qdot_size); CompositeRigidBodyAlgorithm(m, q, H, flag != 0);
      out.begin(seq, "H"); out.mat(H); out.end();
    }
    else if (cmd == "fd") {
      VectorNd q = T.vec(), qd = T.vec(), tau = T.vec(); std::vector<SpatialVector> *fe = C.fext(T);
      VectorNd qdd = VectorNd::Zero(m.qdot_size); ForwardDynamics(m, q, qd, tau, qdd, fe); out.line(seq, "qdd", qdd);
    }
    else if (cmd == "fdl") {
      long solver = T.integer(); VectorNd q = T.vec(), qd = T.vec(), tau = T.vec(); std::vector<SpatialVector> *fe = C.fext(T);
      VectorNd qdd = VectorNd::Zero(m.qdot_size);
      ForwardDynamicsLagrangian(m, q, qd, tau, qdd, (LinearSolver)solver, fe); out.line(seq, "qdd", qdd);
    }
    else if (cmd == "minv") {
      long flag = T.integer(); VectorNd q = T.vec(), tau = T.vec();
      VectorNd qdd = VectorNd::Zero(m.qdot_size); CalcMInvTimesTau(m, q, tau, qdd, flag != 0); out.line(seq, "qdd", qdd);
    }
    else if (cmd == "com") {
      long flag = T.integer(); VectorNd q = T.vec(), qd = T.vec(); long has = T.integer(); VectorNd qdd; if (has) qdd = T.vec();
      double mass; Vector3d com, vel, acc, am, dam;
      Utils::CalcCenterOfMass(m, q, qd, has ? &qdd : NULL, mass, com, &vel, has ? &acc : NULL, &am, has ? &dam : NULL, flag != 0);
      out.begin(seq, "mass"); out.d(mass); out.end(); out.begin(seq, "com"); out.v3(com); out.end();
      out.begin(seq, "comvel"); out.v3(vel); out.end(); out.begin(seq, "angmom"); out.v3(am); out.end();
      if (has) { out.begin(seq, "comacc"); out.v3(acc); out.end(); out.begin(seq, "dangmom"); out.v3(dam); out.end(); }
    }
    else if (cmd == "zmp") {
      long flag = T.integer(); VectorNd q = T.vec(), qd = T.vec(), qdd = T.vec(); Vector3d n = T.v3(), p = T.v3();
      Vector3d z; Utils::CalcZeroMomentPoint(m, q, qd, qdd, &z, n, p, flag != 0); out.begin(seq, "zmp"); out.v3(z); out.end();
    }
    else if (cmd == "ke") { long flag = T.integer(); VectorNd q = T.vec(), qd = T.vec(); out.begin(seq, "ke"); out.d(Utils::CalcKineticEnergy(m, q, qd, flag != 0)); out.end(); }
    else if (cmd == "pe") { long flag = T.integer(); VectorNd q = T.vec(); out.begin(seq, "pe"); out.d(Utils::CalcPotentialEnergy(m, q, flag != 0)); out.end(); }
    else if (cmd == "updboth") {
      VectorNd q = T.vec(), qd = T.vec(), qdd = T.vec();
      UpdateKinematics(m, q, qd, qdd);
      std::vector<SpatialVector> v0 = m.v, a0 = m.a; std::vector<SpatialTransform> X0 = m.X_base;
      scramble(m, 3);
      UpdateKinematicsCustom(m, &q, &qd, &qdd);
      double dmax = 0.;
      for (size_t i = 1; i < m.mBodies.size(); i++) {
        for (int c = 0; c < 6; c++) { dmax = std::max(dmax, fabs(v0[i][c] - m.v[i][c])); dmax = std::max(dmax, fabs(a0[i][c] - m.a[i][c])); }
        for (int c = 0; c < 3; c++) { dmax = std::max(dmax, fabs(X0[i].r[c] - m.X_base[i].r[c])); for (int e = 0; e < 3; e++) dmax = std::max(dmax, fabs(X0[i].E(c, e) - m.X_base[i].E(c, e))); }
      }
      out.begin(seq, "updiff"); out.d(dmax); out.end();
    }
    else if (cmd == "ltl") {
      VectorNd q = T.vec(), b = T.vec();
      MatrixNd H = MatrixNd::Zero(m.qdot_size, m.qdot_size); CompositeRigidBodyAlgorithm(m, q, H, true);
      MatrixNd L = H; SparseFactorizeLTL(m, L);
      MatrixNd LtL = L.transpose() * L;
      out.begin(seq, "LtL"); out.mat(LtL); out.end();
      VectorNd x = b; SparseSolveLTx(m, L, x); SparseSolveLx(m, L, x);
      out.line(seq, "ltlsolve", x);
    }
    else if (cmd == "hprops") {
      VectorNd q = T.vec(), qd = T.vec();
      MatrixNd H = MatrixNd::Zero(m.qdot_size, m.qdot_size); CompositeRigidBodyAlgorithm(m, q, H, true);
      double asym = 0.; for (int i = 0; i < H.rows(); i++) for (int j = 0; j < H.cols(); j++) asym = std::max(asym, fabs(H(i, j) - H(j, i)));
      out.begin(seq, "Hasym"); out.d(asym); out.end();
      out.begin(seq, "halfqHq"); out.d(0.5 * qd.dot(H * qd)); out.end();
      out.begin(seq, "ke"); out.d(Utils::CalcKineticEnergy(m, q, qd, true)); out.end();
    }
    else if (cmd == "join" || cmd == "separate") {
      Matrix3d E = T.m3(); Vector3d r = T.v3();
      double ma = T.num(); Vector3d ca = T.v3(); Matrix3d Ia = T.m3();
      double mb = T.num(); Vector3d cb = T.v3(); Matrix3d Ib = T.m3();
      Body a(ma, ca, Ia), b(mb, cb, Ib);
      try {
        if (cmd == "join") a.Join(SpatialTransform(E, r), b); else a.Separate(SpatialTransform(E, r), b);
        out.begin(seq, cmd.c_str()); out.d(a.mMass); out.v3(a.mCenterOfMass); out.m3(a.mInertia); out.end();
      } catch (Errors::RBDLError &e) { out.begin(seq, cmd.c_str()); out.s("throw"); out.end(); }
    }
    else if (cmd == "l1") {
      std::string op = T.str();
      out.begin(seq, ("l1_" + op).c_str());
      if (op == "apply" || op == "applyT" || op == "applyAdj") {
        Matrix3d E = T.m3(); Vector3d r = T.v3(); SpatialVector v = T.sv(); SpatialTransform X(E, r);
        out.sv(op == "apply" ? X.apply(v) : (op == "applyT" ? X.applyTranspose(v) : X.applyAdjoint(v)));
      } else if (op == "inv") { Matrix3d E = T.m3(); Vector3d r = T.v3(); out.st(SpatialTransform(E, r).inverse()); }
      else if (op == "mul") { Matrix3d E = T.m3(); Vector3d r = T.v3(); Matrix3d E2 = T.m3(); Vector3d r2 = T.v3(); out.st(SpatialTransform(E, r) * SpatialTransform(E2, r2)); }
      else if (op == "tomat" || op == "tomatadj" || op == "tomatT") {
        Matrix3d E = T.m3(); Vector3d r = T.v3(); SpatialTransform X(E, r);
        SpatialMatrix M = op == "tomat" ? X.toMatrix() : (op == "tomatadj" ? X.toMatrixAdjoint() : X.toMatrixTranspose());
        for (int i = 0; i < 6; i++) for (int j = 0; j < 6; j++) out.d(M(i, j));
      }
      else if (op == "rbiapply" || op == "rbiapplyT" || op == "rbimat") {
        Matrix3d E = T.m3(); Vector3d r = T.v3(); double ms = T.num(); Vector3d c = T.v3(); Matrix3d Ic = T.m3();
        SpatialRigidBodyInertia I = SpatialRigidBodyInertia::createFromMassComInertiaC(ms, c, Ic); SpatialTransform X(E, r);
        SpatialRigidBodyInertia R = op == "rbiapply" ? X.apply(I) : (op == "rbiapplyT" ? X.applyTranspose(I) : I);
        SpatialMatrix M = R.toMatrix(); for (int i = 0; i < 6; i++) for (int j = 0; j < 6; j++) out.d(M(i, j));
      }
      else if (op == "rbimulv") { double ms = T.num(); Vector3d c = T.v3(); Matrix3d Ic = T.m3(); SpatialVector v = T.sv();
        SpatialRigidBodyInertia I = SpatialRigidBodyInertia::createFromMassComInertiaC(ms, c, Ic); out.sv(I * v); }
      else if (op == "crossm" || op == "crossf") { SpatialVector a = T.sv(), b = T.sv(); out.sv(op == "crossm" ? crossm(a, b) : crossf(a, b)); }
      else if (op == "qmul") { double a[4], b[4]; for (int k = 0; k < 4; k++) a[k] = T.num(); for (int k = 0; k < 4; k++) b[k] = T.num();
        Quaternion r = Quaternion(a[0], a[1], a[2], a[3]) * Quaternion(b[0], b[1], b[2], b[3]); for (int k = 0; k < 4; k++) out.d(r[k]); }
      else if (op == "qtomat") { double a[4]; for (int k = 0; k < 4; k++) a[k] = T.num(); out.m3(Quaternion(a[0], a[1], a[2], a[3]).toMatrix()); }
      else if (op == "qfrommat") { Matrix3d E = T.m3(); Quaternion r = Quaternion::fromMatrix(E); for (int k = 0; k < 4; k++) out.d(r[k]); }
      else if (op == "qrot") { double a[4]; for (int k = 0; k < 4; k++) a[k] = T.num(); Vector3d v = T.v3(); out.v3(Quaternion(a[0], a[1], a[2], a[3]).rotate(v)); }
      else if (op == "qomega") { double a[4]; for (int k = 0; k < 4; k++) a[k] = T.num(); Vector3d w = T.v3(); Vector4d r = Quaternion(a[0], a[1], a[2], a[3]).omegaToQDot(w); for (int k = 0; k < 4; k++) out.d(r[k]); }
      else if (op == "xrot") { double ang = T.num(); Vector3d ax = T.v3(); out.st(Xrot(ang, ax)); }
      else if (op == "gauss") { long n = T.integer(); MatrixNd A(n, n); for (long i = 0; i < n; i++) for (long j = 0; j < n; j++) A(i, j) = T.num(); VectorNd b = T.vec(); VectorNd x = VectorNd::Zero(n); LinSolveGaussElimPivot(A, b, x); out.vec(x); }
      else out.s("unknown-op");
      out.end();
    }
    else if (!run_ext(C, cmd, T, seq)) { out.begin(seq, "unknown"); out.s(cmd.c_str()); out.end(); }
  } catch (Errors::RBDLError &e) {
    out.begin(seq, "status"); out.s("throw"); out.end();
  } catch (std::exception &e) {
    out.begin(seq, "status"); out.s("exception"); out.end();
  }
}

int main(int argc, char **argv) {
  if (argc < 2) { fprintf(stderr, "usage: rbdl_driver casefile [nofork]\n"); return 2; }
  bool nofork = argc > 2;
  std::ifstream in(argv[1]);
  std::string line; std::vector<std::string> cur; std::string cname;
  std::vector<std::pair<std::string, std::vector<std::string> > > cases;
  while (std::getline(in, line)) {
    if (line.compare(0, 5, "case ") == 0) { if (cname.size()) cases.push_back(std::make_pair(cname, cur)); cname = line.substr(5); cur.clear(); }
    else if (line.size() && line[0] != '#') cur.push_back(line);
  }
  if (cname.size()) cases.push_back(std::make_pair(cname, cur));
  for (size_t c = 0; c < cases.size(); c++) {
    printf("case %s\n", cases[c].first.c_str()); fflush(stdout);
    pid_t pid = nofork ? 0 : fork();
    if (pid == 0) {
      if (!nofork) alarm(10);      // a case that hangs is a crash, not a stalled check
      { std::vector<Ctx *> slots(1, new Ctx()); size_t cur = 0;
        for (size_t k = 0; k < cases[c].second.size(); k++) {
          const std::string &ln = cases[c].second[k];
          // "newmodel": the rest of the case works on a fresh model (twin descriptions of one mechanism, C07)
          if (ln == "newmodel") { delete slots[cur]; slots[cur] = new Ctx(); g_luamode = false; continue; }
          // "use <k>": switch to another live model instance (interleaved use of independent instances, C20)
          if (ln.compare(0, 4, "use ") == 0) { size_t s = (size_t) atoi(ln.c_str() + 4); while (slots.size() <= s) slots.push_back(new Ctx()); cur = s; continue; }
          run_line(*slots[cur], ln, (long)k); }
        for (size_t s = 0; s < slots.size(); s++) delete slots[s]; }
      fflush(stdout);
      if (!nofork) _exit(0);
    } else {
      int st = 0; alarm(0); waitpid(pid, &st, 0);
      if (!WIFEXITED(st) || WEXITSTATUS(st) != 0) { printf("\no -1 crash %d\n", WIFSIGNALED(st) ? WTERMSIG(st) : -1); }
    }
    printf("endcase %s\n", cases[c].first.c_str()); fflush(stdout);
  }
  return 0;
}
