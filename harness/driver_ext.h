// Shared declarations of the correspondence driver.
#ifndef DRIVER_EXT_H
#define DRIVER_EXT_H
#include <rbdl/rbdl.h>
#include <string>
#include <vector>
#include <sstream>
#include <stdexcept>
#include <cstdlib>

using namespace RigidBodyDynamics;
using namespace RigidBodyDynamics::Math;

// ---------------------------------------------------------------- token reader
struct Toks {
  std::vector<std::string> t; size_t i;
  Toks(const std::string &line) : i(0) { std::istringstream is(line); std::string s; while (is >> s) t.push_back(s); }
  bool more() const { return i < t.size(); }
  std::string str() { if (i >= t.size()) throw std::runtime_error("short line"); return t[i++]; }
  double num() { return strtod(str().c_str(), NULL); }
  long integer() { return strtol(str().c_str(), NULL, 10); }
  Vector3d v3() { double a = num(), b = num(), c = num(); return Vector3d(a, b, c); }
  Matrix3d m3() { double m[9]; for (int k = 0; k < 9; k++) m[k] = num(); return Matrix3d(m[0], m[1], m[2], m[3], m[4], m[5], m[6], m[7], m[8]); }
  SpatialVector sv() { double m[6]; for (int k = 0; k < 6; k++) m[k] = num(); return SpatialVector(m[0], m[1], m[2], m[3], m[4], m[5]); }
  VectorNd vec() { long n = integer(); VectorNd v = VectorNd::Zero(n); for (long k = 0; k < n; k++) v[k] = num(); return v; }
};


struct Out {
  void begin(long seq, const char *label); void d(double x); void u(unsigned long x); void s(const char *x); void end();
  void v3(const Vector3d &v); void m3(const Matrix3d &m); void sv(const SpatialVector &v); void vec(const VectorNd &v);
  void mat(const MatrixNd &m); void st(const SpatialTransform &X); void line(long seq, const char *label, const VectorNd &v);
};
extern Out out;

struct ExtState;
struct Ctx {
  Model *model;
  std::vector<unsigned int> ids;            // result of the k-th add command (UINT_MAX = rejected)
  std::vector<unsigned long> used_names;
  std::vector<CustomJoint *> customs;
  std::vector<SpatialVector> fext_store;
  ExtState *ext;
  Ctx(); ~Ctx();
  unsigned int ref(const std::string &s);
  std::vector<SpatialVector> *fext(Toks &T);
};
// commands implemented in driver_ext.cc (constraints, addons); false = unknown command
bool run_ext(Ctx &C, const std::string &cmd, Toks &T, long seq);
void ext_free(ExtState *e);
#endif
